"""Generators for the XPath checks: namespace-well-formed documents, typed expression ASTs, and their
concrete spellings (abbreviated / unabbreviated, white space, redundant parentheses)."""

URIS = ["urn:u1", "urn:u2"]
LOCALS = ["a", "b", "c"]
ATTRS = ["id", "x", "n"]
TEXTS = ["t", "12", " 3 ", "x y", "é", "\U0001D4B3z", "1.5", "-2", "  ", "a&amp;b", "&lt;", "&#65;", "<![CDATA[c<d]]>", "&e1;",
         "10\u00a0000", "\u3000x\u3000 y", "\u00a05\u00a0"]
AXES = ["ancestor", "ancestor-or-self", "attribute", "child", "descendant", "descendant-or-self", "following",
        "following-sibling", "namespace", "parent", "preceding", "preceding-sibling", "self"]


# ---- documents -------------------------------------------------------------------------------------

class DocGen:
    def __init__(self, rng, ns=True, dtd=True, max_depth=3, defaults=False):
        self.r, self.ns, self.dtd, self.max_depth, self.defaults = rng, ns, dtd, max_depth, defaults

    def element(self, depth, scope):
        """scope: dict prefix -> uri of in-scope declarations ('' = default)"""
        r = self.r
        decls = {}
        if self.ns and r.random() < 0.35:
            for _ in range(r.choice([1, 1, 2])):
                p = r.choice(["p", "q", "z", ""])
                decls[p] = r.choice(URIS + ([""] if p == "" else []))
        sc = dict(scope)
        sc.update(decls)
        prefixes = [p for p, u in sc.items() if p != "" and u != ""]
        name = r.choice(LOCALS)
        if prefixes and r.random() < 0.4:
            name = r.choice(prefixes) + ":" + name
        # namespace declarations supplied by attribute-list defaults for this element type (not written in the tag)
        for pfx, uri in getattr(self, "nsdef_map", {}).get(name, {}).items():
            if pfx not in decls:
                sc[pfx] = uri
        prefixes = [p for p, u in sc.items() if p != "" and u != ""]
        attrs = []
        seen = set()
        for _ in range(r.choice([0, 0, 1, 1, 2])):
            an = r.choice(ATTRS + ["xml:lang", "lang"])
            if prefixes and r.random() < 0.25:
                an = r.choice(prefixes) + ":" + r.choice(ATTRS)
            # two attributes of one element must differ in expanded name too
            key = (sc.get(an.split(":")[0], "") if ":" in an else "", an.split(":")[-1])
            if an in seen or key in seen:
                continue
            seen.add(an)
            seen.add(key)
            if an.endswith("lang"):
                val = r.choice(["en", "en-US", "EN", "de", ""])
            else:
                val = r.choice(["1", "2", "v", " w ", "10", "é", "a b"] + (["&e2;", "a&e2;b"] if getattr(self, "dtd_on", False) else []))
            attrs.append((an, val))
        kids = []
        if depth < self.max_depth:
            for _ in range(r.choice([0, 1, 2, 3, 4])):
                k = r.random()
                if k < 0.3:
                    t = r.choice(TEXTS)
                    if t == "&e1;" and not self.dtd_on:
                        t = "t"
                    elif t == "&e1;" and r.random() < 0.5:
                        t = "&e2;"
                    kids.append(("t", t))
                elif k < 0.38:
                    kids.append(("C", r.choice(["c", "", " k "])))
                elif k < 0.48:
                    kids.append(("P", r.choice(["pi", "pi", "tg"]), r.choice([None, "d", "x y"])))
                else:
                    kids.append(self.element(depth + 1, sc))
        return ("E", name, decls, attrs, kids)

    def document(self):
        r = self.r
        self.dtd_on = self.dtd and r.random() < 0.35
        # a namespace declaration may be supplied by an attribute-list default (Namespaces in XML, section 3)
        nsdef = {}
        self.nsdef_map = {}
        if self.dtd_on and self.ns and r.random() < 0.4:
            nsdef[r.choice(["p", "q", "z", ""])] = r.choice(URIS)
        if self.dtd_on and self.ns and r.random() < 0.5:
            # ... and for an element type that occurs anywhere in the document, with or without written attributes
            self.nsdef_map[r.choice(LOCALS)] = {r.choice(["z", "p", ""]): r.choice(URIS)}
        root = self.element(0, nsdef)
        heads = [("P", "pi", "h")] if r.random() < 0.2 else []
        if r.random() < 0.15:
            heads.append(("C", "top"))
        tails = [("C", "end")] if r.random() < 0.15 else []
        dtd = None
        if self.dtd_on:
            dtd = "<!ENTITY e1 'E  1'><!ENTITY e2 'x\ty\nz'>"
            for pfx, uri in nsdef.items():
                dtd += "<!ATTLIST %s xmlns%s CDATA '%s'>" % (root[1], (":" + pfx) if pfx else "", uri)
            for en, m in self.nsdef_map.items():
                for pfx, uri in m.items():
                    if not (en == root[1] and pfx in nsdef):
                        dtd += "<!ATTLIST %s xmlns%s CDATA %s'%s'>" % (en, (":" + pfx) if pfx else "", r.choice(["", "#FIXED "]), uri)
            if self.defaults:
                dtd += "<!ATTLIST %s dflt CDATA 'dv' n NMTOKENS ' 1  2 '>" % root[1]
        return {"root": root, "heads": heads, "tails": tails, "dtd": dtd}


def render_item(it):
    k = it[0]
    if k == "t":
        return it[1]
    if k == "C":
        return "<!--%s-->" % it[1]
    if k == "P":
        return "<?%s%s?>" % (it[1], "" if it[2] is None else " " + it[2])
    _, name, decls, attrs, kids = it
    s = "<" + name
    for p, u in decls.items():
        s += " xmlns%s='%s'" % ((":" + p) if p else "", u)
    for an, v in attrs:
        s += ' %s="%s"' % (an, v)
    if not kids:
        return s + "/>"
    return s + ">" + "".join(render_item(k) for k in kids) + "</" + name + ">"


def render_doc(d):
    s = "".join(render_item(h) for h in d["heads"])
    if d["dtd"] is not None:
        s += "<!DOCTYPE %s [%s]>" % (d["root"][1], d["dtd"])
    s += render_item(d["root"])
    s += "".join(render_item(t) for t in d["tails"])
    return s


def doc_features(d):
    f = set()

    def walk(it):
        if it[0] == "E":
            if it[2]:
                f.add("nsdecl")
                if "" in it[2]:
                    f.add("default-ns" if it[2][""] else "undeclare-default")
            if ":" in it[1]:
                f.add("prefixed-elem")
            for an, _ in it[3]:
                f.add("attr")
                if ":" in an:
                    f.add("prefixed-attr" if not an.startswith("xml:") else "xml:lang")
            for k in it[4]:
                walk(k)
        else:
            f.add({"t": "text", "C": "comment", "P": "pi"}[it[0]])
            if it[0] == "t" and ("&" in it[1] or "CDATA" in it[1]):
                f.add("ref-or-cdata")
    walk(d["root"])
    if d["dtd"] is not None:
        f.add("dtd")
    if d["heads"] or d["tails"]:
        f.add("misc")
    return f


# ---- expressions -----------------------------------------------------------------------------------
# AST (python tuples), typed by the generator:
#   ('path', start, absolute, [step...])   start: None | expr (a node-set valued primary)
#   step: (axis, test, [pred...])          test: ('*',) ('ns*', p) ('name', qname) ('text',) ('comment',) ('node',) ('pi', lit|None)
#   ('bin', op, a, b)  ('neg', e)  ('lit', s)  ('num', s)  ('call', name, [args])  ('filter', e, [preds])  ('var', name)

class ExprGen:
    def __init__(self, rng, prefixes=("p", "q"), unsupported=False):
        self.r = rng
        self.prefixes = list(prefixes)
        self.unsupported = unsupported

    def qname(self):
        n = self.r.choice(LOCALS)
        if self.prefixes and self.r.random() < 0.3:
            return self.r.choice(self.prefixes) + ":" + n
        return n

    def test(self, axis):
        r = self.r
        k = r.random()
        if axis == "attribute":
            if k < 0.5:
                return ("name", r.choice(ATTRS + ["lang", "xml:lang", "dflt"] + ([self.prefixes[0] + ":x"] if self.prefixes else [])))
            if k < 0.8:
                return ("*",)
            return ("node",)
        if axis == "namespace":
            return r.choice([("*",), ("node",), ("name", "p"), ("name", "xml")])
        if k < 0.45:
            return ("name", self.qname())
        if k < 0.6:
            return ("*",)
        if k < 0.66 and self.prefixes:
            return ("ns*", r.choice(self.prefixes))
        if k < 0.8:
            return ("node",)
        if k < 0.88:
            return ("text",)
        if k < 0.93:
            return ("comment",)
        if k < 0.97:
            return ("pi", None)
        return ("pi", r.choice(["pi", "tg"]))

    def step(self, depth):
        r = self.r
        axis = r.choice(["child"] * 6 + ["descendant", "descendant-or-self", "attribute", "self", "parent"] + AXES)
        preds = []
        for _ in range(r.choice([0, 0, 0, 1, 1, 2])):
            preds.append(self.pred(depth + 1))
        return (axis, self.test(axis), preds)

    def pred(self, depth):
        r = self.r
        k = r.random()
        if k < 0.06:
            # a number that DEPENDS ON THE CONTEXT NODE: `[E]` is `[position() = E]` for every node separately, and several
            # nodes may match their own position (round-6 seed C08-G stopped filtering at the first match)
            return ("numpred", r.choice([
                ("call", "position", []),
                ("call", "number", [("path", None, False, [("attribute", ("name", r.choice(["x", "id", "n"])), [])])]),
                ("bin", "+", ("call", "count", [("path", None, False, [("preceding-sibling", ("*",), [])])]), ("num", "1")),
                ("bin", "+", ("call", "count", [("path", None, False, [("preceding-sibling", ("node",), [])])]), ("num", "1")),
                ("call", "string-length", [("call", "name", [])]),
                ("bin", "-", ("call", "last", []), ("call", "count", [("path", None, False, [("following-sibling", ("*",), [])])])),
                ("bin", "mod", ("call", "position", []), ("num", "2")),
            ]))
        if k < 0.3:
            return ("num", r.choice(["1", "2", "3", "1.5", "0", "2.0"]))
        if k < 0.4:
            return ("call", "last", [])
        if k < 0.55:
            return ("bin", r.choice(["=", "!=", "<", "<=", ">", ">="]), ("call", "position", []),
                    r.choice([("num", "1"), ("num", "2"), ("call", "last", []), ("bin", "-", ("call", "last", []), ("num", "1"))]))
        if k < 0.7 and depth < 3:
            return self.nodeset(depth + 1, rel=True)
        return self.boolean(depth + 1)

    def nodeset(self, depth, rel=False):
        r = self.r
        k = r.random()
        if depth < 3 and k < 0.12:
            return ("bin", "|", self.nodeset(depth + 1, rel), self.nodeset(depth + 1, rel))
        if depth < 3 and k < 0.2:
            inner = self.nodeset(depth + 1, rel)
            return ("filter", inner, [self.pred(depth + 1) for _ in range(r.choice([1, 1, 2]))])
        if depth < 3 and k < 0.26:
            inner = self.nodeset(depth + 1, rel)
            return ("path", inner, False, [self.step(depth) for _ in range(r.choice([1, 2]))])
        absolute = (not rel and r.random() < 0.7) or r.random() < 0.2
        nsteps = r.choice([1, 1, 2, 2, 3])
        steps = [self.step(depth) for _ in range(nsteps)]
        if absolute and r.random() < 0.5:
            steps.insert(0, ("descendant-or-self", ("node",), []))
        elif r.random() < 0.15 and len(steps) > 1:
            steps.insert(r.randint(1, len(steps) - 1), ("descendant-or-self", ("node",), []))
        return ("path", None, absolute, steps)

    def number(self, depth):
        r = self.r
        k = r.random()
        if depth >= 3 or k < 0.3:
            # (the last three: the largest double below one half, an odd integer above 2^52 and the largest odd integer - where
            # `floor(x + 0.5)` is not `round(x)`; round-7 seed C05-I)
            return ("num", r.choice(["0", "1", "2", "3", "10", "0.5", "1.5", "2.5", ".5", "7.", "100", "0.1",
                                     "0.49999999999999994", "4503599627370497", "9007199254740991"]))
        if k < 0.45:
            return ("bin", r.choice(["+", "-", "*", "div", "mod"]), self.number(depth + 1), self.number(depth + 1))
        if k < 0.55:
            return ("call", "count", [self.nodeset(depth + 1)])
        if k < 0.62:
            return ("call", "sum", [self.nodeset(depth + 1)])
        if k < 0.7:
            return ("call", r.choice(["floor", "ceiling", "round"]), [self.number(depth + 1)])
        if k < 0.78:
            return ("call", "string-length", [self.string(depth + 1)] if r.random() < 0.8 else [])
        if k < 0.86:
            return ("call", "number", [self.any(depth + 1)] if r.random() < 0.8 else [])
        if k < 0.93:
            return ("neg", self.number(depth + 1))
        return ("call", r.choice(["position", "last"]), [])

    def string(self, depth):
        r = self.r
        k = r.random()
        if depth >= 3 or k < 0.3:
            # (strings a host language's number parser reads but the XPath Number production does not: exponent, sign, inf, nan, hex,
            # digits of other scripts; round-7 seeds C05-J, C06-I)
            return ("lit", r.choice(["", "a", "t", "12", " 3 ", "x y", "é", "en", "1.5", "abc", "\U0001D4B3z", "E 1",
                                     "1e3", "+1", "inf", "Infinity", "NaN", "0x10", "1_0", "\u0661\u0662", "\uff11\uff12", "\u00b2", "-"]))
        if k < 0.42:
            return ("call", "string", [self.any(depth + 1)] if r.random() < 0.8 else [])
        if k < 0.5:
            return ("call", "concat", [self.string(depth + 1) for _ in range(r.choice([2, 2, 3]))])
        if k < 0.6:
            return ("call", r.choice(["substring-before", "substring-after"]), [self.string(depth + 1), self.string(depth + 1)])
        if k < 0.7:
            args = [self.string(depth + 1), self.number(depth + 1)]
            if r.random() < 0.6:
                args.append(self.number(depth + 1))
            return ("call", "substring", args)
        if k < 0.78:
            return ("call", "normalize-space", [self.string(depth + 1)] if r.random() < 0.8 else [])
        if k < 0.84:
            return ("call", "translate", [self.string(depth + 1), ("lit", r.choice(["abc", "t1", "é"])), ("lit", r.choice(["AB", "x", ""]))])
        return ("call", r.choice(["name", "local-name", "namespace-uri"]), [self.nodeset(depth + 1)] if r.random() < 0.85 else [])

    def boolean(self, depth):
        r = self.r
        k = r.random()
        if depth >= 3 or k < 0.1:
            return ("call", r.choice(["true", "false"]), [])
        if k < 0.5:
            return ("bin", r.choice(["=", "=", "!=", "<", "<=", ">", ">="]), self.any(depth + 1), self.any(depth + 1))
        if k < 0.62:
            return ("bin", r.choice(["and", "or"]), self.boolean(depth + 1), self.boolean(depth + 1))
        if k < 0.7:
            return ("call", "not", [self.boolean(depth + 1)])
        if k < 0.78:
            return ("call", "boolean", [self.any(depth + 1)])
        if k < 0.9:
            return ("call", r.choice(["starts-with", "contains"]), [self.string(depth + 1), self.string(depth + 1)])
        return ("call", "lang", [("lit", r.choice(["en", "EN", "en-US", "de", ""]))])

    def any(self, depth):
        return self.r.choice([self.nodeset, self.nodeset, self.number, self.string, self.boolean])(depth)

    def expr(self):
        r = self.r
        k = r.random()
        if k < 0.5:
            return self.nodeset(0)
        return self.any(0)

    def unsupported_expr(self):
        """grammatical, but outside the supported language or ill-typed"""
        r = self.r
        return r.choice([
            ("var", "x"), ("bin", "+", ("var", "p:v"), ("num", "1")),
            ("call", "id", [("lit", "a")]), ("call", "nosuch", []), ("call", "count", [("num", "1")]),
            ("call", "count", []), ("call", "concat", [("lit", "a")]), ("call", "substring", [("lit", "a")]),
            ("bin", "|", ("num", "1"), self.nodeset(1)), ("filter", ("lit", "s"), [("num", "1")]),
            ("path", ("num", "1"), False, [("child", ("*",), [])]),
            ("path", None, True, [("child", ("name", "zz:a"), [])]), ("call", "zz:f", []),
            ("call", "sum", [("lit", "x")]), ("call", "round", []), ("call", "true", [("num", "1")]),
        ])


# ---- spelling ----------------------------------------------------------------------------------------

class Spelling:
    """surface choices: abbrev (use abbreviations where XPath allows them), ws (white space between tokens),
    parens (redundant parentheses)"""

    def __init__(self, rng=None, abbrev=True, ws=False, parens=False, selfstep=False):
        self.r, self.abbrev, self.ws, self.parens = rng, abbrev, ws, parens
        # `.` is short for self::node() (2.5), and a step from the context node itself leads where the path led without it:
        # a relative path P may be written ./P or self::node()/P
        self.selfstep = selfstep

    def sp(self):
        if not self.ws:
            return ""
        return self.r.choice(["", " ", " ", "  ", "\n", "\t "])

    def sp1(self):
        return self.r.choice([" ", "  ", "\n"]) if self.ws else " "


PREC = {"or": 1, "and": 2, "=": 3, "!=": 3, "<": 4, "<=": 4, ">": 4, ">=": 4, "+": 5, "-": 5, "*": 6, "div": 6, "mod": 6, "|": 8}


def spell_test(t, sp):
    if t[0] == "*":
        return "*"
    if t[0] == "ns*":
        return t[1] + ":*"
    if t[0] == "name":
        return t[1]
    if t[0] == "pi":
        return "processing-instruction" + sp.sp() + "(" + sp.sp() + ("" if t[1] is None else "'%s'" % t[1]) + sp.sp() + ")"
    return t[0] + sp.sp() + "(" + sp.sp() + ")"


def spell_pred(p, sp):
    # [n] is short for [position()=n] (2.4, 2.5)
    if not sp.abbrev and p[0] == "num":
        return "[" + sp.sp() + "position" + sp.sp() + "(" + sp.sp() + ")" + sp.sp() + "=" + sp.sp() + p[1] + sp.sp() + "]"
    if p[0] == "numpred":
        if sp.abbrev:
            return "[" + sp.sp() + spell(p[1], sp, 0) + sp.sp() + "]"
        return "[" + sp.sp() + "position" + sp.sp() + "(" + sp.sp() + ")" + sp.sp() + "=" + sp.sp() + spell(p[1], sp, 4) + sp.sp() + "]"
    return "[" + sp.sp() + spell(p, sp, 0) + sp.sp() + "]"


def spell_step(st, sp):
    axis, test, preds = st
    ps = "".join(sp.sp() + spell_pred(p, sp) for p in preds)
    if sp.abbrev:
        if axis == "self" and test == ("node",) and not preds:
            return "."
        if axis == "parent" and test == ("node",) and not preds:
            return ".."
        if axis == "child":
            return spell_test(test, sp) + ps
        if axis == "attribute":
            return "@" + spell_test(test, sp) + ps
    return axis + sp.sp() + "::" + sp.sp() + spell_test(test, sp) + ps


def spell_steps(steps, sp):
    """joins steps with '/', using '//' for a descendant-or-self::node() step when abbreviating"""
    out = ""
    first = True
    i = 0
    while i < len(steps):
        st = steps[i]
        if sp.abbrev and st == ("descendant-or-self", ("node",), []) and i + 1 < len(steps) and not first:
            out += sp.sp() + "//" + sp.sp() + spell_step(steps[i + 1], sp)
            i += 2
            continue
        out += ("" if first else sp.sp() + "/" + sp.sp()) + spell_step(st, sp)
        first = False
        i += 1
    return out


def spell(e, sp, prec=0):
    k = e[0]
    if k == "lit":
        q = '"' if "'" in e[1] else "'"
        s = q + e[1] + q
    elif k == "num":
        s = e[1]
    elif k == "var":
        s = "$" + e[1]
    elif k == "call":
        s = e[1] + sp.sp() + "(" + sp.sp() + (sp.sp() + "," + sp.sp()).join(spell(a, sp, 0) for a in e[2]) + sp.sp() + ")"
    elif k == "neg":
        s = "-" + sp.sp() + spell(e[1], sp, 7)
        if prec > 7:
            s = "(" + s + ")"
    elif k == "bin":
        p = PREC[e[1]]
        op = e[1]
        wordop = op in ("or", "and", "div", "mod")
        left = spell(e[2], sp, p)
        right = spell(e[3], sp, p + 1)
        gap_l = sp.sp1() if (wordop or op == "-" or (op == "*" )) else sp.sp()
        gap_r = sp.sp1() if wordop else sp.sp()
        if op == "<" or op == "<=" or op == ">" or op == ">=" or op == "=" or op == "!=" or op == "+" or op == "|":
            gap_l = sp.sp() if sp.ws else ""
            gap_r = sp.sp() if sp.ws else ""
        s = left + gap_l + op + gap_r + right
        if p < prec:
            s = "(" + sp.sp() + s + sp.sp() + ")"
    elif k == "filter":
        inner = spell(e[1], sp, 0)
        s = "(" + sp.sp() + inner + sp.sp() + ")" + "".join(sp.sp() + spell_pred(p, sp) for p in e[2])
    elif k == "path":
        _, start, absolute, steps = e
        if start is not None:
            inner = spell(start, sp, 0)
            head = "(" + inner + ")" if start[0] not in ("call", "filter") else inner
            body = spell_steps(steps, sp)
            if sp.abbrev and steps and steps[0] == ("descendant-or-self", ("node",), []) and len(steps) > 1:
                s = head + sp.sp() + "//" + sp.sp() + spell_steps(steps[1:], sp)
            else:
                s = head + sp.sp() + "/" + sp.sp() + body
        elif absolute:
            if not steps:
                s = "/"
            elif sp.abbrev and steps[0] == ("descendant-or-self", ("node",), []) and len(steps) > 1:
                s = "//" + sp.sp() + spell_steps(steps[1:], sp)
            else:
                s = "/" + sp.sp() + spell_steps(steps, sp)
        else:
            s = spell_steps(steps, sp)
            if sp.selfstep and steps:
                s = ("." if sp.abbrev else "self::node()") + sp.sp() + "/" + sp.sp() + s
        if prec > 8 and False:
            s = "(" + s + ")"
    else:
        raise ValueError(e)
    if sp.parens and sp.r is not None and k in ("lit", "num", "call", "bin", "path", "filter") and sp.r.random() < 0.25:
        s = "(" + sp.sp() + s + sp.sp() + ")"
    return s


def expr_features(e, acc=None):
    acc = set() if acc is None else acc
    k = e[0]
    if k == "path":
        acc.add("path-abs" if e[2] else ("path-filter" if e[1] is not None else "path-rel"))
        if e[1] is not None:
            expr_features(e[1], acc)
        for axis, test, preds in e[3]:
            acc.add("axis:" + axis)
            acc.add("test:" + test[0])
            for p in preds:
                acc.add("pred")
                expr_features(p, acc)
    elif k == "bin":
        acc.add("op:" + e[1])
        expr_features(e[2], acc)
        expr_features(e[3], acc)
    elif k == "neg":
        acc.add("op:neg")
        expr_features(e[1], acc)
    elif k == "call":
        acc.add("fn:" + e[1])
        for a in e[2]:
            expr_features(a, acc)
    elif k == "filter":
        acc.add("filter")
        expr_features(e[1], acc)
        for p in e[2]:
            expr_features(p, acc)
    else:
        acc.add(k)
    return acc
