#!/usr/bin/env python3
"""intake of a sub-agent's pair of seeded changes:  seed_intake.py <Cxx> <crate dir of the demo: dom|xpath|...> <letter for A> <letter for B>
   verifies each in the agent's scratch worktree /tmp/seed/<Cxx> (suite with the patch, demo with and without), stores the
   verified ones under /verif/seeded/<Cxx>-<letter>/ with meta.json, and removes nothing (the caller removes the worktree)."""
import json, os, re, shutil, subprocess, sys
prop, crate, la, lb = sys.argv[1:5]
head = subprocess.check_output(["git", "-C", "/tmp/seed/%s" % prop, "rev-parse", "--short", "HEAD"]).decode().strip()
for src_letter, letter in (("A", la), ("B", lb)):
    src = "/tmp/seed/%s-out/%s" % (prop, src_letter)
    if not os.path.exists(src + "/patch.diff"):
        print(prop, src_letter, "no patch"); continue
    cr = crate
    notes = open(src + "/notes.md").read() if os.path.exists(src + "/notes.md") else ""
    m = re.search(r"`(dom|xpath|info|parser|nom)/tests/?(?:[a-z_]+\.rs)?`", notes)
    if m:
        cr = m.group(1)
    out = subprocess.run(["/verif/tools/seed_verify.sh", "/tmp/seed/%s" % prop, src, cr], capture_output=True, text=True).stdout.strip().split("\n")[-1]
    mm = re.search(r"=(\d+) (\d+) demo_with_patch=(\d+) (\d+) demo_without=(\d+) (\d+)", out)
    if not mm:
        print(prop, src_letter, "VERIFY-FAILED", out); continue
    v = [int(x) for x in mm.groups()]
    ok = v[0] == 603 and v[1] == 0 and v[3] > 0 and v[5] == 0 and v[4] > 0
    print(prop, src_letter, "->", letter, "crate", cr, out, "KEEP" if ok else "REJECT")
    if not ok:
        continue
    dst = "/verif/seeded/%s-%s" % (prop, letter)
    os.makedirs(dst, exist_ok=True)
    for f in ("patch.diff", "demo.rs", "notes.md"):
        shutil.copy(os.path.join(src, f), dst)
    mt = re.search(r"##[^\n]*(?:manifest|trigger|needs|What it takes|needed|shows)[^\n]*\n(.*?)(?=\n## |\Z)", notes, re.S | re.I)
    needs = (mt.group(1).strip()[:600] if mt else notes[:400])
    json.dump({"id": "%s-%s" % (prop, letter), "breaks_property": prop,
               "source": "independent sub-agent (round %s) given only the property text, the titles of earlier seeded changes to avoid, and a scratch worktree of /repo at %s" % (os.environ.get("SEED_ROUND", "4"), head),
               "needs_to_manifest": needs, "demo_crate_tests_dir": cr + "/tests",
               "confirmed_by_me": {"how": "tools/seed_verify.sh in a scratch worktree: pinned suite with the patch, demo with and without the patch",
                                   "suite_pass": v[0], "suite_fail": v[1], "demo_with_patch_pass": v[2], "demo_with_patch_fail": v[3],
                                   "demo_without_pass": v[4], "demo_without_fail": v[5]},
               "base_commit": head}, open(dst + "/meta.json", "w"), indent=1)
