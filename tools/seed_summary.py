import json,sys
for s in sys.argv[1:]:
    try:
        r=json.load(open('/verif/seeded/%s/result.json'%s))
        for p,c in r.get('checks',{}).items():
            v=[l for l in c.get('lines',[]) if l.startswith('VIOLATION')]
            print(s,p,'viol=%d'%len(v), ('NOINPUT' if v and all('no-failing-input-found' in l for l in v) else ''), (v[0][40:170] if v else 'MISSED'))
        if 'error' in r: print(s,'ERROR',r['error'][:200])
    except Exception as e: print(s,'no result',e)
