#!/bin/bash
# tryseed.sh <seed> <prop>: run the WORKING tree's check on a seed, in scratch copies
s=$1; p=$2
rm -rf /tmp/ts-$s-verif; git -C /repo worktree remove --force /tmp/ts-$s-repo 2>/dev/null
git -C /repo worktree add -q --detach /tmp/ts-$s-repo HEAD && git -C /tmp/ts-$s-repo apply /verif/seeded/$s/patch.diff || exit 2
mkdir -p /tmp/ts-$s-verif; rsync -a --exclude .git --exclude seeded --exclude replays /verif/ /tmp/ts-$s-verif/
mkdir -p /tmp/ts-$s-verif/replays
cd /tmp/ts-$s-verif && VERIF_REPO=/tmp/ts-$s-repo CARGO_NET_OFFLINE=true python3 tools/check.py $p --tier quick 2>&1 | grep -v KNOWN | tail -5
for f in /tmp/ts-$s-verif/replays/*; do echo "== $f"; head -c 1500 "$f"; done 2>/dev/null | head -60
git -C /repo worktree remove --force /tmp/ts-$s-repo; rm -rf /tmp/ts-$s-verif
