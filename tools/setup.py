#!/usr/bin/env python3
"""MANIFEST.setup_cmd: build the framework from files on disk only (offline)."""
import os
import sys
sys.path.insert(0, os.path.dirname(os.path.abspath(__file__)))
import lib

lib.build_harness()
tabs, problems = lib.regenerate()
for p in problems:
    print("setup: " + p)
ok, out = lib.lake_build(["XmlRsModel", "xmlmodel"])
if not ok:
    print(out[-3000:])
    sys.exit(1)
print("setup ok")
