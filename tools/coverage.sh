#!/bin/sh
# Which code of /repo do the checks' correspondence and monitor runs actually execute?  (analysis tool, not a registered check)
#   tools/coverage.sh [property ids...]      default: all 19, quick tier
# Builds the harness with -C instrument-coverage on the nightly toolchain into a scratch directory, runs the checks with that
# driver, merges the profiles and prints, per source file of /repo, the functions and line ranges never executed.
# Everything lives in $COV (default /tmp/verif-cov) and is removed at the end unless KEEP=1.
COV=${COV:-/tmp/verif-cov}
TC=$HOME/.rustup/toolchains/nightly-x86_64-unknown-linux-gnu/lib/rustlib/x86_64-unknown-linux-gnu/bin
PROPS=${*:-C01 C02 C03 C04 C05 C06 C07 C08 C09 C10 C11 C12 C13 C14 C15 C16 C17 C18 C19}
mkdir -p $COV/raw
( cd /verif/harness && RUSTFLAGS="-C instrument-coverage" CARGO_NET_OFFLINE=true cargo +nightly build --offline -q --target-dir $COV/target 2>/dev/null ) || exit 2
cd /verif
for p in $PROPS; do
  VERIF_HARNESS_BIN=$COV/target/debug/xmlrs-driver LLVM_PROFILE_FILE="$COV/raw/%8m.profraw" python3 tools/check.py $p --tier quick > $COV/$p.log 2>&1
  echo "$p rc=$?"
done
$TC/llvm-profdata merge -sparse $COV/raw/*.profraw -o $COV/all.profdata || exit 2
$TC/llvm-cov report $COV/target/debug/xmlrs-driver -instr-profile=$COV/all.profdata --ignore-filename-regex='(\.cargo|rustc|/verif/)' > /verif/work/coverage_report.txt
$TC/llvm-cov export $COV/target/debug/xmlrs-driver -instr-profile=$COV/all.profdata --ignore-filename-regex='(\.cargo|rustc|/verif/)' -format=lcov > $COV/all.lcov
python3 /verif/tools/coverage_gaps.py $COV/all.lcov > /verif/work/coverage_gaps.txt
tail -15 /verif/work/coverage_report.txt
[ "$KEEP" = "1" ] || rm -rf $COV
