"""Writes MANIFEST.json from the table below (kept as code so that it stays valid)."""
import json
import os

VERIF = os.path.dirname(os.path.dirname(os.path.abspath(__file__)))

CLAIMS = {
    "C18": dict(
        text="Kernel-checked theorems that the five character classes extracted exhaustively from the running "
             "code equal productions [2][4][4a][13][81] for every natural number (re-proved on every run against "
             "freshly extracted tables), and that the name productions of the grammar translated from the Rust source "
             "accept exactly NCName / Nmtoken (Name: current lax behaviour characterised, recorded finding); tie: "
             "exhaustive extraction + translator + exhaustive short-string enumeration against the real productions AND the DOM factories "
             "(create_element / create_attribute / create_processing_instruction / create_entity_reference); encoding names against [81].",
        note="Trusted: Lean kernel (axioms propext, Classical.choice, Quot.sound), transcription of the W3C ranges "
             "(lean/XmlRsModel/Chars.lean), harness `classes`/`nameok`, tools/translate.py (combinator skeleton; nom "
             "combinator semantics re-implemented in Peg.lean), generators. QName: `qname_accepts_iff` (the strings the translated `qname` production accepts are exactly Namespaces [7]).",
        technique="Lean 4 proof (omega on extracted range tables; closed forms of translated PEG productions) + exhaustive extraction + translator",
        ref="DESIGN.md section 6 C18"),
    "C16": dict(
        text="Kernel-checked characterisation of the DOM Level 1 CharacterData operations on lists of characters "
             "(which characters come out, what is preserved, INDEX_SIZE_ERR exactly for offset > length, counts clipped "
             "so that usize::MAX is not special, replace = delete;insert, split parts concatenate to the original; inverse laws "
             "insert;delete = identity, insert;substring reads the argument, delete;insert of the substring restores the data; a "
             "failing call keeps the data; the length after every operation), for all strings, offsets and counts; in the tree, "
             "splitText puts the new node immediately after the split node (split_places_new_node_next, under C12's distinct ids); over whole histories failed calls and reads leave no trace in the data; tie: the real text/comment/CDATA/merged-text nodes are driven through "
             "exhaustive single operations (all offsets/counts 0..len+2 and usize::MAX) and random operation sequences "
             "and must answer exactly as the proved model after every call.",
        note="Trusted: Lean kernel, harness `chardata`, generators. The model is hand-written (lean/XmlRsModel/CharData.lean); "
             "agreement with the Rust code is established on the cases of each run only. Validation of inserted text is C15.",
        technique="Lean 4 proof (list lemmas, omega) + differential correspondence against the hand-written model",
        ref="DESIGN.md section 6 C16"),
    "C17": dict(
        text="The two tools are modelled as the compositions parser -> XPath evaluator (merged-text view) -> rewrite of the "
             "information-set tree keyed as the evaluator keys nodes -> printer (lean/XmlRsModel/Cli.lean, all total "
             "functions). Kernel-checked for all documents, selections and replacements: FRAME - an item with no selected "
             "key at or below it is returned unchanged (elements, attribute lists, child lists, defaulted attributes); "
             "EFFECT - a selected element keeps its name and attribute names and gets exactly the replacement as children, "
             "an unselected one only recurses; child count and attribute names/order are preserved; xq prints one line per "
             "key of the (document-ordered, duplicate-free by C07) node-set or the scalar; every failing stage is the error "
             "outcome. Tie: the real xq / xe binaries built from the working tree are run as processes on generated "
             "documents x selectors x replacement fragments x --setns bindings, with and without --no-indent: exit "
             "status/stderr classes (never a crash), stdout equal to the model's, xe's compact output re-parsed and re-printed "
             "by the library equals itself.",
        note="Trusted: Lean kernel, tools/props/c17.py (process runner, classification), generators. That the compact "
             "output parses back is checked per run, not proved (it would need the printer/parser round-trip theorem of C04 "
             "for all trees). Documents with more than one defaulted attribute in a node-set fall under the recorded "
             "finding default-attr-order (C05/C07) and are not generated here. Indented output: outcome class and "
             "well-formedness only.",
        technique="Lean 4 proof (frame/effect theorems by structural induction on the tree rewrite) + differential correspondence "
                  "against the real binaries",
        ref="DESIGN.md section 6 C17"),
    "C02": dict(
        text="Kernel-checked soundness of the parser model for all strings: whatever is reported as a document is a "
             "derivation of the context-free reading of the grammar TRANSLATED FROM THE RUST SOURCE on this run, flattens to "
             "exactly the consumed text, has a single root followed only by Misc, matching start/end tag names, character "
             "data free of '<', '&' and ']]>', no reserved PI target, and an element tree satisfying Unique Att Spec, Legal "
             "Character and Entity Declared. Tie: translator + outcome class of the real from_raw on hand-kept ill-formed "
             "documents, every targeted edit and seeded token-level edits of generated documents, against the model; monitor: "
             "the code must not report a complete parse where the specification model (recorded findings repaired, "
             "entity-usage constraints added) rejects.",
        note="Trusted: Lean kernel; Peg.lean's re-implementation of nom's combinators; tools/translate.py; the hand-written "
             "abstraction CST->items (Infoset.lean) and checks (XmlDoc.lean), tied by `accept`/`parse`. Constraints not yet "
             "stated as theorems: '--' in comments, '<' in attribute-value literals (grammar classes, covered by the tie). "
             "Known findings name-lax, entity-wfc. The specification side of the monitor is the REVIEWED grammar (tools/ref/xml.json) with "
             "the repairs of the recorded findings - it does not move when the source moves, so a grammar change that is still a "
             "recognised combinator shape (and is therefore absorbed by the translated model) is caught as a difference between the "
             "parser and the reviewed grammar on a concrete document.",
        technique="Lean 4 proof (generic PEG soundness by induction on fuel, inversion on the generated grammar) + translator + differential mutants",
        ref="DESIGN.md section 6 C02"),
    "C04": dict(
        text="Round trip print->parse->print on every accepted document: monitor on the real code (re-parse ok with empty "
             "rest, equal canonical dump and PartialEq, identical second serialization) and tie against the model's printer "
             "and parser. Kernel-checked: `print_parse_roundtrip` (parse (print d) = (d, nothing left)) and `printer_fixpoint` "
             "for EVERY printable document, XML declaration and DOCTYPE with internal subset included - the printer writes one rendering (`canonDoc`) "
             "and every rendering is parsed to the document it renders by the grammar translated from the current source "
             "(completeness proof of the PEG, C01 `rendering_parses`); the quoting rule is faithful exactly unless a value "
             "holds both quote kinds; the printer is a homomorphism on item lists; for every document the soundness half (a "
             "complete re-parse flattens to exactly the printed text).",
        note="The theorems hold for "
             "every sufficient fuel (the model's own fuel formula is checked per input, not proved). Each run evaluates the "
             "theorem's hypotheses on every accepted document of the run (evidence `theorem_reach`: ALL accepted documents of the run "
             "satisfy them). The proofs follow the translated grammar closely: a refactoring of a production breaks them "
             "(reported with no-failing-input-found).",
        technique="Lean 4 proof (PEG completeness on renderings, abs(tree)=erase, printer = canonical rendering) + translator + differential correspondence of printer/parser + round-trip monitor",
        ref="DESIGN.md section 0 and section 6 C04"),
    "C01": dict(
        text="Generated abstract documents (feature mixer incl. DTD) in several renderings: the real parser must accept with "
             "empty rest and dump exactly the items the abstract value denotes (independent python oracle), and agree with the "
             "model. Kernel-checked: `rendering_parses` - EVERY concrete document (abstract document + all surface-syntax choices: "
             "white space in tags and around `=`, either quote, empty-element tag or start/end pair, Misc and white space around "
             "the root, the layout of the XML declaration and of every declaration of the internal subset incl. content models) "
             "that meets the lexical side conditions of the productions is parsed "
             "completely to exactly the abstract document it renders, by the grammar translated from the current source; "
             "`surface_syntax_is_irrelevant`; what a character reference denotes for every number; the reported items are an "
             "abstraction of one derivation tree spelling exactly the consumed text; determinism.",
        note="Whole supported profile (XML declaration, Misc, DOCTYPE with internal subset, elements); parameter entities are outside (unsupported by the library); fuel as in C04. The infoset is compared in the raw view (the merged-text view is what the XPath checks C05-C10 compare). Oracle = tools/gen/xmlgen.py denote. Second oracle for "
             "acceptance: the REVIEWED grammar (tools/ref/xml.json, committed; regenerated into Gen/XmlGrammarRef.lean on every run): "
             "random derivations of it and of its parts, with keyword-prefixed names and one-character neighbours, must be accepted by "
             "the real parser whenever the model over the reviewed grammar accepts them. The reviewed snapshot is updated by hand "
             "(tools/translate.py --snapshot) after a grammar-changing fix: commit has been read against the Recommendation.",
        technique="Lean 4 proof (PEG completeness on renderings of the whole profile) + translator + differential correspondence against model and denotation oracle",
        ref="DESIGN.md section 0 and section 6 C01"),
    "C03": dict(
        text="Totality of the parse / infoset / print pipeline. Kernel-checked on the model (all inputs): every model function is a "
             "terminating total function into ok/error (no panic outcome exists), a non-`fuel` parser answer does not depend on the "
             "amount of fuel, parameter-entity references and cyclic entity definitions are errors, and no accepted document nests "
             "elements deeper than the limit constant read from the source by the translator (so every recursion over an accepted "
             "document is bounded). Tie: outcome class (ok/rest/err vs panic/abort/timeout) of the real pipeline (both DOM views, "
             "Display, pretty, DOM walk) in an isolated worker on garbage, token mutants and 21 adversarial families incl. hostile "
             "sizes, compared with the model's class; growth ratio time(2n)/time(n) per family; wide shallow documents on a 256 KiB stack; "
             "printing into sinks of every capacity that answer Ok(0) / an error / take one byte per call (must end, with an error while "
             "something is unwritten).",
        note="Partial by nature: real stack exhaustion and running time are runtime facts the model cannot exhibit; they are measured "
             "(outcome classes, doubling ratios), not proved. `xml_fuel_sufficient` (the model driver's fuel formula never runs out) is "
             "checked on every explored input, not proved. Trusted: Lean kernel, translator, harness `pipeline`, generators.",
        technique="Lean 4 proof (fuel monotonicity, depth bound by inversion, error theorems) + translator + isolated-worker differential outcome classes and growth measurement",
        ref="DESIGN.md section 6 C03"),
    "C11": dict(
        text="Kernel-checked characterisation (all literals, all entity tables) of the normalisation model: literal tab/CR/LF "
             "become spaces and nothing else changes, a character reference contributes the referenced character verbatim (also "
             "inside entities), entity references expand recursively, tokenized types give exactly the CDATA result with leading/"
             "trailing spaces dropped and runs collapsed (collapsed form characterised, idempotent, other characters kept in "
             "order), the attribute list of an element is exactly written + defaulted-and-not-written (flags as stated), "
             "#IMPLIED/#REQUIRED never supply one, every ATTLIST of the element type is consulted and the first definition of a "
             "name binds. Tie: systematic type x default-kind x literal grid and random mixtures, observed through the info view "
             "and the DOM view, against the model and against an independent python transcription of 3.3.3/3.3.2.",
        note="Trusted: Lean kernel; the hand-written model AttrNorm.lean (agreement with the code established on the cases of "
             "each run); harness `attrs`; python oracle. Known finding required-default (pinned by the suite). Literal CR LF "
             "pairs and entity chains deeper than the library's limit (64) are outside the generated space.",
        technique="Lean 4 proof (list induction on the normalisation model) + differential correspondence + independent oracle",
        ref="DESIGN.md section 6 C11"),
    "C05": dict(
        text="The evaluator model is written as the Recommendation is written (axes as filters of the document-order list, node tests, "
             "predicates with proximity positions, coercions, the core library); kernel-checked: declarative characterisations of the "
             "axes and the Recommendation's sentence that ancestor / descendant / following / preceding / self PARTITION the document "
             "(cover + pairwise disjoint, for every document and context node), name tests select only the principal node type, "
             "positions count in reverse document order exactly on the reverse axes, a numeric predicate is a position test, string-value "
             "equations. Tie: generated namespace-well-formed documents x typed expressions over the whole supported language, real "
             "query() in the merged-text view vs the model, values compared exactly (numbers by IEEE bit pattern).",
        note="Trusted: Lean kernel; the hand-written model XPath/{Tree,Num,Ast,Eval}.lean as a transcription of XPath 1.0 (it is the oracle), "
             "translator for the expression grammar, harness `query`. Known findings: namespace-nodes, default-attr-order, negzero-string. "
             "Raw (unmerged) DOM view is not compared. Initial context position/size are 0 as in the library.",
        technique="Lean 4 proof (order theory on keys, list filters) + translator + differential correspondence against the model as oracle",
        ref="DESIGN.md section 6 C05"),
    "C06": dict(
        text="Totality: the model's evaluator is accepted by Lean's termination checker (structural recursion over the expression), "
             "returns values or typed errors only; kernel-checked: variable references and id() are errors/empty, unknown function and "
             "arity violations are errors before evaluation, parent of the root is empty and of an attribute is its element, parser "
             "answers do not depend on fuel, no accepted expression nests deeper than the limit read from the source. Tie: four streams "
             "(valid, unsupported/ill-typed, garbage, single-character mutants) + 11 growth families in a worker process: no panic/"
             "abort/timeout, same outcome class as the model, time(2n)/time(n) bounded.",
        note="Partial by nature: running time and stack depth of the real code are measured, not proved. Trusted: Lean kernel, translator, harness.",
        technique="Lean 4 proof (structural termination, error theorems, fuel monotonicity) + isolated-worker differential outcome classes + growth measurement",
        ref="DESIGN.md section 6 C06"),
    "C07": dict(
        text="Kernel-checked for every document and expression: the list of all nodes is strictly increasing for document order (which is "
             "a strict total order on keys), every node-set value the evaluator returns is a sub-list of it (hence duplicate-free and in "
             "document order), union is commutative, associative and idempotent, count(A|B) <= count(A)+count(B), a positional filter on a "
             "parenthesised node-set counts in document order. Monitor on the real results (independent of the model): strictly "
             "increasing order keys and pre-order positions, no repeated node, the union laws and (A)[k] on generated pairs.",
        note="Trusted: Lean kernel, harness node location (paths by id), generators. Known findings: namespace-nodes, default-attr-order.",
        technique="Lean 4 proof (mutual induction over the tree for sortedness; list lemmas) + monitor on implementation outputs + differential correspondence",
        ref="DESIGN.md section 6 C07"),
    "C08": dict(
        text="Kernel-checked COMPLETENESS of the expression parser translated from the source: every well-formed SPELLING (concrete "
             "expression = abstract expression + every surface choice: white space around every token, quotes, @/attribute::, omitted/"
             "child:: axis, ., .., //, which grammar layers are passed through, i.e. where parentheses stand) within the nesting limit is "
             "parsed, for every sufficient fuel, to exactly the abstract expression it denotes (spelling_parses); two spellings of one "
             "abstract expression give the same value or error on every document (equivalent_spellings_evaluate_identically); the "
             "abbreviations have the abstract syntax of their expansions. Also: [n] keeps exactly the nodes [position()=n] keeps for EVERY "
             "number n, an accepted expression is a derivation of the layered grammar spelling the whole input (precedence per grammar), "
             "nesting beyond MAX_EXPR_DEPTH is refused. Tie: every generated AST in 6 spellings must give one result on the real code, "
             "equal to the model's, plus fixed precedence/associativity/node-type cases; each run evaluates the theorem's hypotheses on "
             "every accepted expression text (evidence theorem_reach; default seed 15853/15909, all generator spellings).",
        note="Theorem over `ok` spellings; the lexical side condition demands white space before -, div, mod, and, or whatever the left "
             "operand ends with (needed only after a name): accepted texts like `8.1mod 2` are outside the theorem and covered by the tie "
             "only. At the model's fixed fuel the theorems give `the expression, or the model's own fuel outcome`. Trusted: Lean kernel, "
             "translator, evaluator model tied by correspondence. Reviewed expression grammar (tools/ref/xpath.json) as reference: "
             "derivations of it and their one-character neighbours must be read (error class and value) as the model over the reviewed "
             "grammar reads them.",
        technique="Lean 4 proof (fuel-free PEG semantics, mutual induction over concrete syntax) + translator + metamorphic differential "
                  "correspondence over spellings",
        ref="DESIGN.md section 0 (Completeness of the expression parser), section 6 C08"),
    "C09": dict(
        text="Numbers are modelled as IEEE binary64 BIT PATTERNS with exact natural-number arithmetic (no Float): all functions reduce in "
             "the kernel. Kernel-checked for all arguments: substring selects exactly the characters whose position lies in the rounded "
             "window (IEEE comparisons, so NaN/infinities/out-of-range are covered) and is a subsequence of its argument, translate, "
             "starts-with, contains, substring-before/after specifications, normalize-space (keeps exactly the non-white-space characters in "
             "order; every white-space character of the result is one U+0020 between two non-white-space characters; idempotent), "
             "string-length counts characters, special values of round/"
             "floor/ceiling/string(), integral arguments unchanged, number() is NaN outside the XPath lexical form. Tie: complete arity "
             "table 0..5, full products over a pool of 23 strings x 23 numbers x booleans for unary/binary functions, arithmetic and "
             "comparisons, substring triples, the Recommendation's examples; numbers compared by bit pattern.",
        note="Round-to-nearest-even of the soft arithmetic itself is validated by the tie (every pool operation must agree bit-for-bit with "
             "the hardware result of the running code), not proved. Known finding negzero-string (pinned by the suite).",
        technique="Lean 4 proof (list induction; kernel evaluation of exact arithmetic) + exhaustive pool differential correspondence",
        ref="DESIGN.md section 6 C09"),
    "C10": dict(
        text="Kernel-checked: in-scope namespaces (own declaration wins, inheritance, shadowing, xmlns=\"\" undeclares, xml stays bound), "
             "the default namespace applies to unprefixed elements and never to attributes, and a name test depends ONLY on node kind, "
             "expanded name and the URI the caller bound to the prefix; and for the whole evaluator (eval_ren, by mutual induction): every "
             "expression without name()/local-name() and without a name test on the namespace axis has the same value or error on a document "
             "whose prefixes were renamed consistently (injective renaming keeping xml), and EVERY expression has the same value when its own "
             "prefixes are renamed together with the caller's bindings (eval_rename_expression). "
             "Tie/monitor: random declaration layouts x a battery of name tests and namespace-uri/local-name/name queries vs the model, "
             "and the same queries after renaming the document's prefixes, and after renaming the expression's prefixes with the bindings.",
        note="Trusted: Lean kernel, model Tree.lean (scope computation), generators. Known finding namespace-nodes (namespace axis).",
        technique="Lean 4 proof (list lemmas on scope computation, congruence of the node test, mutual induction over the evaluator for both renamings) + metamorphic differential correspondence",
        ref="DESIGN.md section 6 C10"),
    "C19": dict(
        text="In the model parsing, tree building and evaluation are functions of their arguments and the context of a predicate is passed "
             "down, never returned; kernel-checked in the property's terms: each query of a series answers as alone (also after failing "
             "ones), operands share the caller's context, a predicate cannot change its caller's position/size, parse is deterministic. "
             "Tie: sequences of 3-9 queries incl. failures at top level and inside predicates on ONE real context vs fresh contexts, "
             "serialization unchanged by querying, every text parsed and printed twice; every query also ALONE on a document parsed for "
             "it (what an earlier query leaves in the document), DOM histories with and without queries in between, the same text read "
             "twice compared with ==.",
        note="The theorems are largely by construction (a Lean function has no hidden state); the content is that the code behaves like such a "
             "function, which only the tie can show. Trusted: Lean kernel, harness `query`/`qfresh`.",
        technique="Lean 4 proof (functional model) + differential correspondence re-used vs fresh context",
        ref="DESIGN.md section 6 C19"),
    "C12": dict(
        text="Kernel-checked by induction over the history, for EVERY parsed document and EVERY sequence of the model's 25 DOM "
             "operations, successful or refused: every node id occurs exactly once in the forest of document tree and detached trees "
             "(`no_node_twice`; identities are never re-used or invented, `identities_never_reused`; invariant `Inv`, preserved by each operation `step_grow`, established by the initial numbering "
             "`buildSt_inv`); hence the parent view and the child-list view agree in every reachable state "
             "(`views_agree_after_any_history`), a removed node and every detached root have no parent, no node lies beneath itself, "
             "a move loses and duplicates nothing (`insert/remove/replace_preserves_nodes`, as multiset equalities), inserting a node "
             "beneath itself is refused, and the document keeps at most one element child and one document type child "
             "(`one_element_one_doctype`, second invariant `DocInv`). Monitor (the deciding part for the real code's REDUNDANT state - "
             "child vectors, parent ids, id map): after every step of every history, for every live node, parent_node vs child_nodes, "
             "first/last child, previous/next sibling, has_child, no node twice or beneath itself, detached roots without parent, at "
             "most one document element/doctype, read from the real navigation views; NodeLists and attribute maps obtained when a node "
             "was first seen are read again after every step (second handles are live). Tie: status and tree dump equal the model's "
             "after every step; when the tie breaks, the disagreeing histories are continued under the monitors (search step).",
        note="The theorems are about the model's single forest; the code's redundant representation is tied per run (monitor + dump). "
             "`OneRoot d` (at most one element and one document type at top level) is proved for every document the model's parser "
             "delivers (`parsed_is_oneRoot`: the element half from `absDocument`, the document-type half by inversion of the derivation "
             "of the translated `prolog` production), so `one_element_one_doctype_parsed` has no hypothesis left. Sibling "
             "navigation (previous/next) is read off the child list in the model and not separately stated. Nodes of a second document are exercised "
             "by C13's `foreign` stream (a monitor against the specified exception classes; the model holds one document); document "
             "fragments are a stub in the code (no NodeMut) and are not generated. Trusted: Lean kernel, model Dom.lean, harness `dom`.",
        technique="Lean 4 proof (invariant by induction over operation sequences; counting lemmas over the forest) + monitor on the "
                  "implementation's navigation views + differential correspondence of edit histories",
        ref="DESIGN.md section 0 and section 6 C12"),
    "C13": dict(
        text="Kernel-checked for EVERY state and EVERY call of the model (25 operations): a call that fails with any exception, or by the "
             "recorded factory panic, leaves the document tree and all detached trees exactly as they were. The model `Dom.step` is the "
             "DOM Level 1 reading of each mutator (effect incl. moving an attached node, replace = remove + insert with restore, "
             "exception classes and their order). Tie/monitor: histories with receivers/arguments of every kind and position and "
             "markup-significant strings: no panic, failed call leaves the dump unchanged, status and full dump (with node identities) "
             "equal the model's after every call; plus a MATRIX of every mutator with every kind of node as the receiver (1660 short "
             "histories), nodes of another document (same text read twice), and calls that must change nothing in the text-expanded view.",
        note="EFFECT theorems (Thm/C13Effect.lean, for every state satisfying the C12 invariant, i.e. every state reachable from a "
             "parsed document): after insertBefore/appendChild the parent's child ids are its former children without the new child, "
             "in order, with the new child in front of the reference child / at the end, and the new child reports that parent; after "
             "removeChild the parent keeps its other children in order and the removed subtree is a detached root without parent; after "
             "replaceChild(new, old) with different nodes old is handed back and the children are the former ones without new, in order, "
             "with new where old stood. "
             "normalize: the element afterwards reads exactly as before (same marks, same characters in the same places), is in "
             "normal form (no empty Text node, no Text node after one it could have been appended to) and no node is lost or "
             "duplicated; a successful data edit stores the validated outcome and changes no other node (Thm/C15 data_edit_effect). "
             "The effects of the attribute operations are the model's definitions (checked against the code by the tie: set/remove/"
             "get attribute, attribute nodes, and the same through NamedNodeMap), not separately characterised. Document fragments "
             "(a stub in the code, no NodeMut) and foreign documents are not generated. Known findings factory-panic, "
             "attr-local-part.",
        technique="Lean 4 proof (case analysis over all operations) + differential correspondence with full state dumps after every call",
        ref="DESIGN.md section 6 C13"),
    "C14": dict(
        text="The library rebuilds the order vector from the tree after every structural edit; the model defines a node's key as its "
             "position in that pre-order walk. Kernel-checked for every state: attached nodes have non-zero keys, keys are 1..n along "
             "the walk element -> attributes -> value items -> children (strictly increasing, distinct) when ids are distinct - and they "
             "are distinct AT EVERY POINT OF ANY EDIT HISTORY of a parsed document (keys_after_any_history, via C12) -, every "
             "node outside the document tree has key 0 (in particular the node removeChild hands back); as a function of node identity the key "
             "is injective on attached nodes, 0 exactly for detached ones and at most the number of attached nodes (key_injective, "
             "key_zero_iff_detached, key_le_count, distinct_nodes_distinct_keys for every history). Monitor after every step of every history on the real code: order() along "
             "the real walk strictly increasing and non-zero, 0 for detached nodes; 9 queries give the same answer on the edited "
             "document and on from_raw(to_string()).",
        note="The 'consequently' (query equality) is established by the monitor only, on node numbering that ignores text-node "
             "segmentation. Known finding default-attr-order (defaulted attributes have key 0) is outside the generated histories "
             "(no DTD). Trusted: Lean kernel, harness `dom`.",
        technique="Lean 4 proof (index lemmas on the pre-order id list) + monitor on order keys and query equality after every edit",
        ref="DESIGN.md section 6 C14"),
    "C15": dict(
        text="The model's validity predicates are the grammar productions generated from the source (char_data, comment, cdsect, pi, "
             "att_value, qname) — the ones the library validates with. Kernel-checked: closed forms of what the translated productions accept for a "
             "Text node (all Chars but '<' '&', no ']]>'), a CDATA section (all Chars, no ']]>') and a comment (= production [15] of the "
             "Recommendation as a recogniser, = all Chars, no '--', no '-' at the end; by induction over the fuel-driven many0 loop), a PI target (a Name that is not xml in "
             "any letter case) and PI data (all Chars, no '?>'); effect and frame of a successful data edit (the node holds the "
             "validated outcome, no other node of the document or of a detached tree changes identity, kind or data); the depth clause "
             "(depth_bounded_after_any_history, parsed_and_edited_stays_within_depth: whatever text the translated parser accepts and after ANY history of the 25 operations no tree nests "
             "elements deeper than MAX_ELEMENT_DEPTH, the depth the parser reads back - by an invariant of the transition relation, "
             "Lemmas/DomHeight), "
             "every data edit that succeeds stored data that passed the predicate for the node's kind evaluated "
             "on the OUTCOME of the edit (so sequences arising from combining harmless pieces are refused), a refused edit changes "
             "nothing. THE INVARIANT OVER HISTORIES (Thm/C15Valid: valid_after_any_history, document_stays_valid): after ANY sequence "
             "of the 25 operations, succeeded or failed, EVERY node of the document tree and of every detached tree holds data and a "
             "name that passed the library's check for its kind - in closed form: no Text node holds '<' or '&', no comment '--' or a "
             "trailing '-', no CDATA section ']]>', no PI a target that is not a Name or is xml or data with '?>', every element and "
             "attribute name is a QName of Namespaces [7]; the text pieces of every attribute value the att_value production accepts "
             "hold no '<' and no '&' (by inversion of a derivation of the translated production). The hypothesis on the initial "
             "document (docOK, decidable) is evaluated on every document a history of the run starts from (evidence theorem_reach: "
             "665/665 on the default seed). Monitor after every step: to_string() is accepted by from_raw with nothing left and its "
             "dump equals the DOM's own dump. Tie: status and dump vs the model.",
        note="Partial: the step from 'every node holds validated data' to 'the serialization parses back to the same content' is not a "
             "theorem for DOM states (the DOM model carries neither namespace declarations nor the DOCTYPE body, and adjacent Text nodes "
             "print as one run with ']]>' escaped by the printer); for documents it is Thm/C04 print_parse_roundtrip, for DOM states the "
             "re-parse monitor after every successful call. Known finding factory-panic.",
        technique="Lean 4 proof (partial; grammar-derived validity predicates) + re-parse monitor after every successful call + differential correspondence",
        ref="DESIGN.md section 6 C15"),
}

PENDING_REASON = "check not built yet (work in progress; see DESIGN.md section 10 build order)"
ALL = ["C%02d" % i for i in range(1, 20)]


def main():
    checks = []
    for pid in ALL:
        if pid not in CLAIMS:
            continue
        c = CLAIMS[pid]
        checks.append({
            "property_id": pid,
            "quick_cmd": "python3 tools/check.py %s --tier quick" % pid,
            "thorough_cmd": "python3 tools/check.py %s --tier thorough" % pid,
            "evidence_file": "evidence/%s.json" % pid,
            "replay_cmd_template": "python3 tools/check.py %s --replay {path}" % pid,
            "engine": "lean-model",
            "level_claimed": {"category": "proof", "text": c["text"], "design_ref": c["ref"]},
            "level_note": c["note"],
            "technique": c["technique"],
        })
    m = {
        "version": 1,
        "setup_cmd": "python3 tools/setup.py",
        "hooks": {
            "guard": "xml_rs_verif",
            "enable": "no hooks are needed: every observable used is public API; checks build /repo's crates as path dependencies of /verif/harness",
            "baseline_off_cmd": "cd /repo && cargo test --workspace --no-fail-fast --offline",
            "source_commits": [],
            "add_only": True,
        },
        "engines": [{
            "name": "lean-model",
            "path": "lean/",
            "serves_properties": sorted(CLAIMS),
            "kind_free_text": "Lean 4 model (generated grammars + hand-written semantics) with kernel-checked theorems; "
                              "Rust harness + compiled Lean driver on one line protocol; python orchestrator",
        }],
        "checks": checks,
        "not_applicable": [{"property_id": p, "reason": PENDING_REASON} for p in ALL if p not in CLAIMS],
        "notes": "Every check rebuilds the harness from /repo's working tree, regenerates lean/XmlRsModel/Gen/*.lean "
                 "(tables extracted from the running code, grammars translated from the Rust source), rebuilds the "
                 "theorem module, audits axioms, then runs the differential tie and the monitors. Known findings: "
                 "KNOWN_FINDINGS.txt.",
    }
    with open(os.path.join(VERIF, "MANIFEST.json"), "w") as f:
        json.dump(m, f, indent=1)
        f.write("\n")


if __name__ == "__main__":
    main()
