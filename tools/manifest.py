"""Writes MANIFEST.json from the table below (kept as code so that it stays valid)."""
import json
import os

VERIF = os.path.dirname(os.path.dirname(os.path.abspath(__file__)))

CLAIMS = {
    "C18": dict(
        text="Kernel-checked theorems that the five character classes extracted exhaustively from the running "
             "code equal productions [2][4][4a][13][81] for every natural number (re-proved on every run against "
             "freshly extracted tables), and that the name productions of the grammar translated from the Rust source "
             "accept exactly NCName / Nmtoken (Name: current lax behaviour characterised, recorded finding); tie: "
             "exhaustive extraction + translator + exhaustive short-string enumeration against the real productions.",
        note="Trusted: Lean kernel (axioms propext, Classical.choice, Quot.sound), transcription of the W3C ranges "
             "(lean/XmlRsModel/Chars.lean), harness `classes`/`nameok`, tools/translate.py (combinator skeleton; nom "
             "combinator semantics re-implemented in Peg.lean), generators. QName iff-theorem not yet proved (tie only).",
        technique="Lean 4 proof (omega on extracted range tables; closed forms of translated PEG productions) + exhaustive extraction + translator",
        ref="DESIGN.md section 6 C18"),
    "C16": dict(
        text="Kernel-checked characterisation of the DOM Level 1 CharacterData operations on lists of characters "
             "(which characters come out, what is preserved, INDEX_SIZE_ERR exactly for offset > length, counts clipped "
             "so that usize::MAX is not special, replace = delete;insert, split parts concatenate to the original), for "
             "all strings, offsets and counts; tie: the real text/comment/CDATA/merged-text nodes are driven through "
             "exhaustive single operations (all offsets/counts 0..len+2 and usize::MAX) and random operation sequences "
             "and must answer exactly as the proved model after every call.",
        note="Trusted: Lean kernel, harness `chardata`, generators. The model is hand-written (lean/XmlRsModel/CharData.lean); "
             "agreement with the Rust code is established on the cases of each run only. Validation of inserted text is C15.",
        technique="Lean 4 proof (list lemmas, omega) + differential correspondence against the hand-written model",
        ref="DESIGN.md section 6 C16"),
    "C02": dict(
        text="Kernel-checked soundness of the parser model for all strings: whatever is reported as a document is a "
             "derivation of the context-free reading of the grammar TRANSLATED FROM THE RUST SOURCE on this run, flattens to "
             "exactly the consumed text, has a single root followed only by Misc, matching start/end tag names, character "
             "data free of '<', '&' and ']]>', no reserved PI target, and an element tree satisfying Unique Att Spec, Legal "
             "Character and Entity Declared. Tie: translator + outcome class of the real from_raw on hand-kept ill-formed "
             "documents, every targeted edit and seeded token-level edits of generated documents, against the model; monitor: "
             "the code must not report a complete parse where the specification model (recorded findings repaired, "
             "entity-usage constraints added) rejects.",
        note="Trusted: Lean kernel; Peg.lean's re-implementation of nom's combinators; tools/translate.py; the hand-written "
             "abstraction CST->items (Infoset.lean) and checks (XmlDoc.lean), tied by `accept`/`parse`. Constraints not yet "
             "stated as theorems: '--' in comments, '<' in attribute-value literals (grammar classes, covered by the tie). "
             "Known findings name-lax, entity-wfc.",
        technique="Lean 4 proof (generic PEG soundness by induction on fuel, inversion on the generated grammar) + translator + differential mutants",
        ref="DESIGN.md section 6 C02"),
    "C04": dict(
        text="Round trip print->parse->print on every accepted document: monitor on the real code (re-parse ok with empty "
             "rest, equal canonical dump and PartialEq, identical second serialization) and tie against the model's printer "
             "and parser. Kernel-checked so far: the quoting rule is faithful exactly unless a value holds both quote kinds, "
             "the printer is a homomorphism on item lists, and the soundness half of the round trip (a complete re-parse "
             "flattens to exactly the printed text). The completeness half `parseDoc (printDoc d) = ok (d, [])` is stated in "
             "Thm/C04.lean and not yet proved (partial).",
        note="Partial proof: the universally quantified round-trip theorem is open; what is decided for all inputs is the "
             "listed lemmas; the round trip itself is established on the generated and mutated documents of each run only.",
        technique="Lean 4 proof (partial) + differential correspondence of printer/parser + round-trip monitor",
        ref="DESIGN.md section 6 C04"),
    "C01": dict(
        text="Generated abstract documents (feature mixer incl. DTD) in several renderings: the real parser must accept with "
             "empty rest and dump exactly the items the abstract value denotes (independent python oracle), and agree with the "
             "model. Kernel-checked so far: what a character reference denotes for every number, that the reported items are an "
             "abstraction of one derivation tree spelling exactly the consumed text, determinism. The completeness statement "
             "`parseDoc (render st d) = ok (denote d, [])` is stated and not yet proved (partial).",
        note="Partial proof; raw view only so far (merged-text view pending). Oracle = tools/gen/xmlgen.py denote.",
        technique="Lean 4 proof (partial) + translator + differential correspondence against model and denotation oracle",
        ref="DESIGN.md section 6 C01"),
    "C03": dict(
        text="Totality of the parse / infoset / print pipeline. Kernel-checked on the model (all inputs): every model function is a "
             "terminating total function into ok/error (no panic outcome exists), a non-`fuel` parser answer does not depend on the "
             "amount of fuel, parameter-entity references and cyclic entity definitions are errors, and no accepted document nests "
             "elements deeper than the limit constant read from the source by the translator (so every recursion over an accepted "
             "document is bounded). Tie: outcome class (ok/rest/err vs panic/abort/timeout) of the real pipeline (both DOM views, "
             "Display, pretty, DOM walk) in an isolated worker on garbage, token mutants and 21 adversarial families incl. hostile "
             "sizes, compared with the model's class; growth ratio time(2n)/time(n) per family.",
        note="Partial by nature: real stack exhaustion and running time are runtime facts the model cannot exhibit; they are measured "
             "(outcome classes, doubling ratios), not proved. `xml_fuel_sufficient` (the model driver's fuel formula never runs out) is "
             "checked on every explored input, not proved. Trusted: Lean kernel, translator, harness `pipeline`, generators.",
        technique="Lean 4 proof (fuel monotonicity, depth bound by inversion, error theorems) + translator + isolated-worker differential outcome classes and growth measurement",
        ref="DESIGN.md section 6 C03"),
    "C11": dict(
        text="Kernel-checked characterisation (all literals, all entity tables) of the normalisation model: literal tab/CR/LF "
             "become spaces and nothing else changes, a character reference contributes the referenced character verbatim (also "
             "inside entities), entity references expand recursively, tokenized types give exactly the CDATA result with leading/"
             "trailing spaces dropped and runs collapsed (collapsed form characterised, idempotent, other characters kept in "
             "order), the attribute list of an element is exactly written + defaulted-and-not-written (flags as stated), "
             "#IMPLIED/#REQUIRED never supply one, every ATTLIST of the element type is consulted and the first definition of a "
             "name binds. Tie: systematic type x default-kind x literal grid and random mixtures, observed through the info view "
             "and the DOM view, against the model and against an independent python transcription of 3.3.3/3.3.2.",
        note="Trusted: Lean kernel; the hand-written model AttrNorm.lean (agreement with the code established on the cases of "
             "each run); harness `attrs`; python oracle. Known finding required-default (pinned by the suite). Literal CR LF "
             "pairs and entity chains deeper than the library's limit (64) are outside the generated space.",
        technique="Lean 4 proof (list induction on the normalisation model) + differential correspondence + independent oracle",
        ref="DESIGN.md section 6 C11"),
}

PENDING_REASON = "check not built yet (work in progress; see DESIGN.md section 10 build order)"
ALL = ["C%02d" % i for i in range(1, 20)]


def main():
    checks = []
    for pid in ALL:
        if pid not in CLAIMS:
            continue
        c = CLAIMS[pid]
        checks.append({
            "property_id": pid,
            "quick_cmd": "python3 tools/check.py %s --tier quick" % pid,
            "thorough_cmd": "python3 tools/check.py %s --tier thorough" % pid,
            "evidence_file": "evidence/%s.json" % pid,
            "replay_cmd_template": "python3 tools/check.py %s --replay {path}" % pid,
            "engine": "lean-model",
            "level_claimed": {"category": "proof", "text": c["text"], "design_ref": c["ref"]},
            "level_note": c["note"],
            "technique": c["technique"],
        })
    m = {
        "version": 1,
        "setup_cmd": "python3 tools/setup.py",
        "hooks": {
            "guard": "xml_rs_verif",
            "enable": "no hooks are needed: every observable used is public API; checks build /repo's crates as path dependencies of /verif/harness",
            "baseline_off_cmd": "cd /repo && cargo test --workspace --no-fail-fast --offline",
            "source_commits": [],
            "add_only": True,
        },
        "engines": [{
            "name": "lean-model",
            "path": "lean/",
            "serves_properties": sorted(CLAIMS),
            "kind_free_text": "Lean 4 model (generated grammars + hand-written semantics) with kernel-checked theorems; "
                              "Rust harness + compiled Lean driver on one line protocol; python orchestrator",
        }],
        "checks": checks,
        "not_applicable": [{"property_id": p, "reason": PENDING_REASON} for p in ALL if p not in CLAIMS],
        "notes": "Every check rebuilds the harness from /repo's working tree, regenerates lean/XmlRsModel/Gen/*.lean "
                 "(tables extracted from the running code, grammars translated from the Rust source), rebuilds the "
                 "theorem module, audits axioms, then runs the differential tie and the monitors. Known findings: "
                 "KNOWN_FINDINGS.txt.",
    }
    with open(os.path.join(VERIF, "MANIFEST.json"), "w") as f:
        json.dump(m, f, indent=1)
        f.write("\n")


if __name__ == "__main__":
    main()
