"""Writes MANIFEST.json from the table below (kept as code so that it stays valid)."""
import json
import os

VERIF = os.path.dirname(os.path.dirname(os.path.abspath(__file__)))

CLAIMS = {
    "C18": dict(
        text="Kernel-checked theorems that the five character classes extracted exhaustively from the running "
             "code equal productions [2][4][4a][13][81] for every natural number (re-proved on every run against "
             "freshly extracted tables), and that the name productions of the grammar translated from the Rust source "
             "accept exactly NCName / Nmtoken (Name: current lax behaviour characterised, recorded finding); tie: "
             "exhaustive extraction + translator + exhaustive short-string enumeration against the real productions.",
        note="Trusted: Lean kernel (axioms propext, Classical.choice, Quot.sound), transcription of the W3C ranges "
             "(lean/XmlRsModel/Chars.lean), harness `classes`/`nameok`, tools/translate.py (combinator skeleton; nom "
             "combinator semantics re-implemented in Peg.lean), generators. QName iff-theorem not yet proved (tie only).",
        technique="Lean 4 proof (omega on extracted range tables; closed forms of translated PEG productions) + exhaustive extraction + translator",
        ref="DESIGN.md section 6 C18"),
    "C16": dict(
        text="Kernel-checked characterisation of the DOM Level 1 CharacterData operations on lists of characters "
             "(which characters come out, what is preserved, INDEX_SIZE_ERR exactly for offset > length, counts clipped "
             "so that usize::MAX is not special, replace = delete;insert, split parts concatenate to the original), for "
             "all strings, offsets and counts; tie: the real text/comment/CDATA/merged-text nodes are driven through "
             "exhaustive single operations (all offsets/counts 0..len+2 and usize::MAX) and random operation sequences "
             "and must answer exactly as the proved model after every call.",
        note="Trusted: Lean kernel, harness `chardata`, generators. The model is hand-written (lean/XmlRsModel/CharData.lean); "
             "agreement with the Rust code is established on the cases of each run only. Validation of inserted text is C15.",
        technique="Lean 4 proof (list lemmas, omega) + differential correspondence against the hand-written model",
        ref="DESIGN.md section 6 C16"),
}

PENDING_REASON = "check not built yet (work in progress; see DESIGN.md section 10 build order)"
ALL = ["C%02d" % i for i in range(1, 20)]


def main():
    checks = []
    for pid in ALL:
        if pid not in CLAIMS:
            continue
        c = CLAIMS[pid]
        checks.append({
            "property_id": pid,
            "quick_cmd": "python3 tools/check.py %s --tier quick" % pid,
            "thorough_cmd": "python3 tools/check.py %s --tier thorough" % pid,
            "evidence_file": "evidence/%s.json" % pid,
            "replay_cmd_template": "python3 tools/check.py %s --replay {path}" % pid,
            "engine": "lean-model",
            "level_claimed": {"category": "proof", "text": c["text"], "design_ref": c["ref"]},
            "level_note": c["note"],
            "technique": c["technique"],
        })
    m = {
        "version": 1,
        "setup_cmd": "python3 tools/setup.py",
        "hooks": {
            "guard": "xml_rs_verif",
            "enable": "no hooks are needed: every observable used is public API; checks build /repo's crates as path dependencies of /verif/harness",
            "baseline_off_cmd": "cd /repo && cargo test --workspace --no-fail-fast --offline",
            "source_commits": [],
            "add_only": True,
        },
        "engines": [{
            "name": "lean-model",
            "path": "lean/",
            "serves_properties": sorted(CLAIMS),
            "kind_free_text": "Lean 4 model (generated grammars + hand-written semantics) with kernel-checked theorems; "
                              "Rust harness + compiled Lean driver on one line protocol; python orchestrator",
        }],
        "checks": checks,
        "not_applicable": [{"property_id": p, "reason": PENDING_REASON} for p in ALL if p not in CLAIMS],
        "notes": "Every check rebuilds the harness from /repo's working tree, regenerates lean/XmlRsModel/Gen/*.lean "
                 "(tables extracted from the running code, grammars translated from the Rust source), rebuilds the "
                 "theorem module, audits axioms, then runs the differential tie and the monitors. Known findings: "
                 "KNOWN_FINDINGS.txt.",
    }
    with open(os.path.join(VERIF, "MANIFEST.json"), "w") as f:
        json.dump(m, f, indent=1)
        f.write("\n")


if __name__ == "__main__":
    main()
