#!/bin/sh
# usage: run_seeds.sh "<seed ids like C02-G C02-H ...>"
cd /verif
for s in $1; do echo $s; done | xargs -P 5 -I{} sh -c 'p=$(echo {} | cut -d- -f1); python3 tools/seed_run.py seeded/{} $p > /tmp/seedrun_{}.log 2>&1; echo "{} done: $(grep -h -m1 -o "VIOLATION[^\n]*" /tmp/seedrun_{}.log | head -1 | cut -c1-160)"'
